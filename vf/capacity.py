"""Capacity rule: a buffer that is written with an extent taken from a message's length byte is allocated with a size expression that
covers that extent.

Writers:  llvm.memcpy(dst, src, n) with a non-constant n, and calls of a *formatter* - a repo function that prints into a `char *`
parameter with sprintf inside a loop over `message[0] + 1` bytes (requirement: (message[0] + 1) * K characters, K = the longest output of one
iteration computed from the format strings).
Buffers:  a local array (fixed size N), a VLA (size expression), or a heap block whose malloc size expression is stored to the same
pointer object earlier in the function.
Extent and size are compared as linear forms over the byte loads they mention (each byte load ranges over 0..255)."""
import re

from . import rules


# ---------------------------------------------------------------------------------------------------------------- linear forms
def _ptr_key(f, o, depth=0):
    """canonical key of a pointer operand: ('slot', alloca id) for the value of a pointer local / parameter, plus constant byte offset"""
    off = 0
    for _ in range(8):
        o = rules.strip_casts(f, o)
        if o.get("k") == "global":
            return ("g", o["name"], off + (o.get("off") or 0))
        if o.get("k") != "inst":
            return None
        i = f.insts[o["id"]]
        if i.op == "getelementptr":
            if i["idx"]:
                return None
            off += i.get("off") or 0
            o = i["base"]
            continue
        if i.op == "load":
            src = rules.load_source(f, o)
            if src and src[0] == "alloca":
                return ("slot", src[1], off)
            inner = _ptr_key(f, i["ptr"], depth + 1)
            if inner is not None and depth < 3:
                return ("deref", inner, off)
            return None
        if i.op == "alloca":
            return ("alloca", i.id, off)
        return None
    return None


def sym(f, o, depth=0):
    """(const, {term: coeff}) or None.  Terms are byte/int loads identified by their pointer key."""
    if depth > 12:
        return None
    c = rules.const_of(f, o)
    if c is not None:
        return (c, {})
    if o.get("k") != "inst":
        return None
    r = rules.resolve_local(f, o)
    if r is not o and r != o:
        s = sym(f, r, depth + 1)
        if s is not None:
            return s
    i = f.insts[o["id"]]
    if i.op in ("zext", "sext", "trunc"):
        return sym(f, i["a"], depth + 1)
    if i.op in ("add", "sub"):
        a, b = sym(f, i["a"], depth + 1), sym(f, i["b"], depth + 1)
        if a is None or b is None:
            return None
        sg = 1 if i.op == "add" else -1
        t = dict(a[1])
        for k, v in b[1].items():
            t[k] = t.get(k, 0) + sg * v
        return (a[0] + sg * b[0], {k: v for k, v in t.items() if v})
    if i.op in ("mul", "shl"):
        a, b = sym(f, i["a"], depth + 1), sym(f, i["b"], depth + 1)
        if a is None or b is None:
            return None
        if i.op == "shl":
            if b[1]:
                return None
            m = 1 << b[0]
            return (a[0] * m, {k: v * m for k, v in a[1].items()})
        if not b[1]:
            return (a[0] * b[0], {k: v * b[0] for k, v in a[1].items() if v * b[0]})
        if not a[1]:
            return (b[0] * a[0], {k: v * a[0] for k, v in b[1].items() if v * a[0]})
        return None
    if i.op == "load":
        k = _ptr_key(f, i["ptr"])
        if k is None:
            return None
        w = {"i8": 255, "i16": 65535}.get(i.get("ty"), None)
        return (0, {("ld", k, w): 1})
    return None


def _max(s):
    """upper bound of a linear form whose terms are bounded loads, or None"""
    tot = s[0]
    for (k, coeff) in s[1].items():
        if coeff > 0:
            if k[2] is None:
                return None
            tot += coeff * k[2]
    return tot


def covers(size, extent):
    """True: size >= extent for all values; False: extent exceeds size for some values; None: undecided"""
    if size is None or extent is None:
        return None
    t = dict(size[1])
    for k, v in extent[1].items():
        t[k] = t.get(k, 0) - v
    d = (size[0] - extent[0], {k: v for k, v in t.items() if v})
    if all(v >= 0 for v in d[1].values()):
        if d[0] >= 0:
            return True
        if not d[1]:
            return False
        return False
    # some coefficient negative: worst case at the maximum of those terms
    worst = d[0]
    for k, v in d[1].items():
        if v < 0:
            if k[2] is None:
                return None
            worst += v * k[2]
    return True if worst >= 0 else False


# ---------------------------------------------------------------------------------------------------------------- formatters
_SPEC = re.compile(r"%([0-9]*)(hh|h|l|ll)?([dxXucs%])")


def _fmt_max(fmt, argtypes):
    """longest output of a printf format whose integer arguments are zero-extended bytes (argtypes: widths in bits of the source values)"""
    n = 0
    pos = 0
    k = 0
    for m in _SPEC.finditer(fmt):
        n += m.start() - pos
        pos = m.end()
        width = int(m.group(1)) if m.group(1) else 0
        conv = m.group(3)
        if conv == "%":
            n += 1
            continue
        bits = argtypes[k] if k < len(argtypes) else None
        k += 1
        if conv == "s" or bits is None:
            return None
        if conv in ("x", "X"):
            digits = (bits + 3) // 4
        elif conv in ("d", "u"):
            digits = len(str((1 << bits) - 1))
        else:
            digits = 1
        n += max(width, digits)
    n += len(fmt) - pos
    return n


def _src_bits(f, o):
    """bit width of the value an integer vararg was extended from"""
    o2 = o
    for _ in range(4):
        if o2.get("k") != "inst":
            return None
        i = f.insts[o2["id"]]
        if i.op in ("zext",):
            ft = i.get("fromty")
            if ft and ft[1:].isdigit():
                return int(ft[1:])
            return None
        if i.op in ("sext", "trunc"):
            o2 = i["a"]
            continue
        ty = i.get("ty") or ""
        return int(ty[1:]) if ty[1:].isdigit() else None
    return None


def formatters(P):
    """name -> {'msg': param index, 'dest': param index, 'const': c, 'per_len': k}: repo functions that print into a char* parameter with sprintf,
    some of it inside a loop whose counter runs from a constant to message[0]; the characters written (terminating NUL included) are at most
    c + k * message[0]"""
    out = {}
    for f in P.repo_functions():
        if not f.blocks:
            continue
        sp = [c for c in f.calls("sprintf")]
        if not sp:
            continue
        # the loop bound: counter <=/< message[0]
        bound = None
        for i in f.all_insts():
            if i.op == "icmp" and i["pred"] in ("ule", "ult", "sle", "slt"):
                s_ = sym(f, i["b"])
                ctr = rules.load_source(f, i["a"])
                if s_ and len(s_[1]) == 1 and s_[0] == 0 and ctr and ctr[0] == "alloca":
                    (k, coeff), = s_[1].items()
                    if coeff == 1 and k[0] == "ld" and k[1][0] == "slot" and k[1][2] == 0:
                        pj = f.param_index_of_alloca(f.insts[k[1][1]])
                        if pj is not None:
                            bound = (i, ctr[1], pj, 1 if i["pred"] in ("ule", "sle") else 0)
        if bound is None:
            continue
        cmp_, ctr, msg, incl = bound
        loop = None
        for h, body in f.loops().items():
            if cmp_.bb.id in body:
                loop = body if loop is None or len(body) < len(loop) else loop
        if loop is None:
            continue
        # initial value of the counter: the constant store that dominates the loop
        c0 = None
        for x in f.all_insts():
            if x.op == "store" and x["ptr"].get("k") == "inst" and x["ptr"]["id"] == ctr and x.bb.id not in loop and f.dominates(x, cmp_):
                c0 = rules.const_of(f, x["val"])
        if c0 is None:
            continue
        dest = None
        const = 1          # the terminating NUL
        per_len = 0
        ok = True
        for c in sp:
            src = rules.load_source(f, c.args[0])
            pj = f.param_index_of_alloca(f.insts[src[1]]) if src and src[0] == "alloca" else None
            fmt = c.args[1].get("str") if len(c.args) > 1 else None
            m = _fmt_max(fmt, [_src_bits(f, a) for a in c.args[2:]]) if fmt is not None else None
            if pj is None or pj == msg or (dest is not None and pj != dest) or m is None:
                ok = False
                break
            dest = pj
            if c.bb.id not in loop:
                const += m
                continue
            # iterations: message[0] - c0 + incl; one fewer when the call is guarded by `counter != c0`
            iters_const = incl - c0
            for (gd, truth) in rules.conditions_at(f, c):
                cnd = f.resolve(gd["cond"])
                if cnd is not None and cnd.op == "icmp" and cnd["pred"] in ("eq", "ne") and rules.const_of(f, cnd["b"]) == c0:
                    cs = rules.load_source(f, cnd["a"])
                    if cs and cs[0] == "alloca" and cs[1] == ctr and (cnd["pred"] == "ne") == truth:
                        iters_const -= 1
                        break
            const += m * iters_const
            per_len += m
        if not ok or dest is None or per_len == 0:
            continue
        out[f.name] = {"msg": msg, "dest": dest, "const": const, "per_len": per_len}
    return out


# ---------------------------------------------------------------------------------------------------------------- the rule
def _buffer_of(f, o, before):
    """describe the buffer a destination operand points into: ('fixed', N, alloca) | ('vla', size form, alloca) | ('heap', size form, malloc call) | None"""
    base = o
    for _ in range(6):
        base = rules.strip_casts(f, base)
        if base.get("k") != "inst":
            return None
        i = f.insts[base["id"]]
        if i.op == "getelementptr":
            if any(rules.const_of(f, x["v"]) not in (0,) for x in i["idx"]) or (i.get("off") or 0) != 0:
                return None
            base = i["base"]
            continue
        break
    i = f.insts[base["id"]]
    if i.op == "alloca":
        if "count" in i.d and i["count"].get("k") == "inst":
            s = sym(f, i["count"])
            if s is None:
                return None
            es = i.get("elsize") or 1
            return ("vla", (s[0] * es, {k: v * es for k, v in s[1].items()}), i)
        m = re.match(r"\[(\d+) x i8\]", str(i.get("aty", "")))
        if m:
            return ("fixed", int(m.group(1)), i)
        return None
    if i.op == "load":
        key = _ptr_key(f, i["ptr"])
        if key is None:
            return None
        cands = []
        for s_ in f.all_insts():
            if s_.op == "store" and _ptr_key(f, s_["ptr"]) == key:
                cands.append(s_)
        doms = [s_ for s_ in cands if f.dominates(s_, before)]
        if len(cands) != 1 or len(doms) != 1:
            return None
        v = f.resolve(rules.strip_casts(f, doms[0]["val"]))
        if v is not None and v.op == "call" and v.callee in ("malloc", "g_malloc") and v.args:
            s = sym(f, v.args[0])
            if s is None:
                return None
            return ("heap", s, v)
        if v is not None and v.op == "call" and v.callee == "calloc" and len(v.args) == 2:
            a, b = sym(f, v.args[0]), sym(f, v.args[1])
            if a is not None and b is not None and not b[1]:
                return ("heap", (a[0] * b[0], {k: c * b[0] for k, c in a[1].items()}), v)
        return None
    return None


def _fmt_form(s):
    parts = []
    for (k, c) in sorted(s[1].items(), key=str):
        nm = "byte[%d]" % k[1][2] if k[1][0] in ("slot", "deref") else "load"
        parts.append(("%d*" % c if c != 1 else "") + nm)
    if s[0] or not parts:
        parts.append(str(s[0]))
    return " + ".join(parts)


def check(P, fnames, F=None):
    """yields (status, function, inst, object key, text, detail) with status ok | violation | abstain for every data-dependent write in the functions"""
    F = formatters(P) if F is None else F
    res = []
    for name in sorted(fnames):
        f = P.functions.get(name)
        if f is None or not f.blocks:
            continue
        for c in f.calls():
            extent = None
            dst = None
            what = None
            if c.callee in F:
                spec = F[c.callee]
                if len(c.args) <= max(spec["msg"], spec["dest"]):
                    continue
                mk = _ptr_key(f, c.args[spec["msg"]])
                if mk is None:
                    res.append(("abstain", f, c, "fmt", "message argument of %s not resolved" % c.callee, None))
                    continue
                term = ("ld", (mk[0], mk[1], 0), 255)
                extent = (spec["const"], {term: spec["per_len"]})
                dst = c.args[spec["dest"]]
                what = "%s prints up to %d + %d * length characters" % (c.callee, spec["const"], spec["per_len"])
            elif c.callee and c.callee.startswith("llvm.memcpy") and rules.const_of(f, c.args[2]) is None:
                extent = sym(f, c.args[2])
                dst = c.args[0]
                what = "block copy of a data-dependent number of bytes"
                if extent is None:
                    continue
            else:
                continue
            buf = _buffer_of(f, dst, c)
            if buf is None:
                continue
            if buf[0] == "fixed":
                mx = _max(extent)
                if mx is None:
                    res.append(("abstain", f, c, "cap", "extent not bounded", None))
                    continue
                size = (buf[1], {})
                verdict = buf[1] >= mx
                if not verdict:
                    # a guard on the same byte before the call bounds it: undecided here
                    terms = set(extent[1])
                    for (gd, truth) in rules.conditions_at(f, c):
                        cnd = f.resolve(gd["cond"])
                        if cnd is not None and cnd.op == "icmp":
                            for side in ("a", "b"):
                                s_ = sym(f, cnd[side])
                                if s_ and set(s_[1]) & terms:
                                    verdict = None
                sizetxt = "%d bytes" % buf[1]
            else:
                size = buf[1]
                verdict = covers(size, extent)
                sizetxt = "%s bytes (%s)" % (_fmt_form(size), "variable-length array" if buf[0] == "vla" else "heap block allocated at line %d" % buf[2].line)
            detail = {"write": c.loc(), "what": what, "extent": _fmt_form(extent), "buffer": sizetxt}
            if verdict is True:
                res.append(("ok", f, c, "cap", "", detail))
            elif verdict is None:
                res.append(("abstain", f, c, "cap", "size %s vs extent %s undecided" % (sizetxt, _fmt_form(extent)), detail))
            else:
                res.append(("violation", f, c, "cap:%s" % (buf[2].get("var") or ("line%d" % buf[2].line) if buf[0] != "heap" else "heap"),
                            "%s into a buffer of %s, but the extent is %s: a message with a large length byte writes past the buffer" % (what, sizetxt, _fmt_form(extent)), detail))
    return res
