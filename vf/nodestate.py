"""Roles in the per-node flow-control code (located by what the functions do, names only for reports)."""
from . import flow, rules
from .build import AnalysisBroken

NS = "t_bidib_node_state"
CMR = NS + ".current_max_respond"
STALL = NS + ".stall"
MSGQ = NS + ".message_queue"
RESPQ = NS + ".response_queue"
STALLQ = NS + ".stall_affected_nodes_queue"


def queue_field_of_call(P, fn, call):
    """for a g_queue_* call: the node-state queue field its first argument was loaded from, or None"""
    if not call.args:
        return None
    # `GQueue *const q = state->message_queue; ... g_queue_pop_head(q)`: follow single-assignment locals
    a = fn.resolve(rules.resolve_local(fn, rules.strip_casts(fn, call.args[0])))
    if a is not None and a.op == "load":
        return rules.field_path_of_ptr(P, fn, a["ptr"])
    return None


def empty_queue_guard(P, fn, guard, taken):
    """a condition known to hold -> the node-state queue field it proves EMPTY, or None.  Recognised forms (and their negations on
    the other edge): g_queue_is_empty(q); g_queue_get_length(q) == 0; q->length == 0; g_queue_peek_head(q) == NULL."""
    def queue_of_value(o, truth):
        """o is an integer/pointer/bool operand; truth: 'o is non-zero' holds (True) or 'o is zero' holds (False) -> field proven empty"""
        o = rules.resolve_local(fn, rules.strip_casts(fn, o))
        i = fn.resolve(o)
        if i is None:
            return None
        if i.op == "call":
            if i.callee == "g_queue_is_empty" and truth:
                return queue_field_of_call(P, fn, i)
            if i.callee in ("g_queue_get_length", "g_queue_peek_head", "g_queue_peek_tail") and not truth:
                return queue_field_of_call(P, fn, i)
            return None
        if i.op == "load" and not truth:
            # q->length / q->head, q loaded from the node-state field
            ch = rules.field_chain(P, fn, i["ptr"])
            if ch and ch[-1] in ("_GQueue.length", "_GQueue.head", "GQueue.length", "GQueue.head"):
                g = fn.resolve(i["ptr"])
                while g is not None and g.op in ("getelementptr", "bitcast"):
                    g = fn.resolve(g["base"] if g.op == "getelementptr" else g["a"])
                if g is not None and g.op == "load":
                    return rules.field_path_of_ptr(P, fn, g["ptr"])
            return None
        if i.op == "icmp":
            cb = rules.const_of(fn, i["b"])
            isnull = i["b"].get("k") == "null"
            if cb == 0 or isnull:
                if i["pred"] == "eq":
                    return queue_of_value(i["a"], not truth)
                if i["pred"] in ("ne", "ugt", "sgt"):
                    return queue_of_value(i["a"], truth)
            if cb == 1 and i["pred"] in ("ult", "slt"):
                return queue_of_value(i["a"], not truth)
            if cb == 1 and i["pred"] in ("uge", "sge"):
                return queue_of_value(i["a"], truth)
            return None
        if i.op == "xor" and rules.const_of(fn, i["b"]) in (1, -1):
            return queue_of_value(i["a"], not truth)
        return None
    return queue_of_value(guard["cond"], taken)


class Roles:
    def __init__(self, w):
        P = self.P = w.P
        self.fns = [f for f in P.repo_functions()]
        # functions touching a field
        def touching(field, op):
            out = {}
            for f in self.fns:
                for i in f.all_insts():
                    if i.op == op and rules.field_path_of_ptr(P, f, i["ptr"]) == field:
                        out.setdefault(f.name, []).append(i)
            return out
        self.cmr_stores = touching(CMR, "store")
        self.cmr_loads = touching(CMR, "load")
        self.stall_stores = touching(STALL, "store")
        self.stall_loads = touching(STALL, "load")
        if not self.cmr_stores or not self.stall_stores or not self.stall_loads:
            raise AnalysisBroken("node-state fields current_max_respond/stall not found (anchors vanished)")
        # queue API calls per field
        self.qcalls = {}   # field -> [(fn, call)]
        for f in self.fns:
            for i in f.calls():
                if i.callee and i.callee.startswith("g_queue_"):
                    fld = queue_field_of_call(P, f, i)
                    if fld in (MSGQ, RESPQ, STALLQ):
                        self.qcalls.setdefault(fld, []).append((f, i))
        # the node table itself: the file-static object handed to g_hash_table_insert by the creation code
        self.table_global = None
        for f in self.fns:
            for i in f.calls("g_hash_table_insert"):
                for t in flow.origins(f, i.args[0]):
                    if t[0] == "gload":
                        self.table_global = t[1]
        # table reset: removes entries from the hash table while iterating
        self.reset_fns = {f.name for f in self.fns if any(i.callee == "g_hash_table_iter_remove" for i in f.calls())}
        # wire append: memcpy into the 256-byte static send buffer
        self.wire = set()
        for f in self.fns:
            for i in f.calls():
                if i.callee and i.callee.startswith("llvm.memcpy"):
                    for t in flow.origins(f, i.args[0]):
                        if t[0] == "gaddr" and P.globals.get(t[1], {}).get("size") == 256 and P.globals[t[1]].get("internal"):
                            self.wire.add(f.name)
        if not self.wire:
            # the append may be a byte-wise copy loop: take the role from the sender's own role finder
            try:
                from .props import c01 as _c01
                self.wire = {f_.name for f_, i_ in _c01.send_roles(w)["append"]}
            except AnalysisBroken:
                self.wire = set()
        if not self.wire:
            raise AnalysisBroken("wire-append function not found")
        # retry: pops the deferred-message queue and appends to the wire (not the reset)
        self.retry = set()
        for (f, i) in self.qcalls.get(MSGQ, []):
            if i.callee == "g_queue_pop_head" and f.name not in self.reset_fns and any(c.callee in self.wire for c in f.calls()):
                self.retry.add(f.name)
        if not self.retry:
            raise AnalysisBroken("deferred-message retry function not found")
        # stall check: loads .stall inside a loop
        self.stall_check = set()
        for name, loads in self.stall_loads.items():
            f = P.functions[name]
            loops = f.loops()
            for l in loads:
                if any(l.bb.id in body for body in loops.values()):
                    self.stall_check.add(name)
        if not self.stall_check:
            raise AnalysisBroken("stall check (loop over ancestors testing .stall) not found")
        # node creation: stores constants to the fields and inserts into the table
        self.creators = {f.name for f in self.fns if any(i.callee == "g_hash_table_insert" for i in f.calls()) and f.name in self.cmr_stores}
        # admit: adds to cmr
        self.adders = set()
        self.subbers = set()
        for name, stores in self.cmr_stores.items():
            f = P.functions[name]
            for s in stores:
                v = f.resolve(rules.strip_casts(f, s["val"]))
                if v is not None and v.op == "add":
                    self.adders.add(name)
                elif v is not None and v.op == "sub":
                    self.subbers.add(name)
