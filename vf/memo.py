"""Lookup memos: a lookup function that remembers its last result in a global is sound only if every writer of what the lookup reads forgets the memo.

For each lookup L (a function returning a pointer into the state tables) that stores to internal globals G:  R = the record fields L and its
callees read.  Every function outside the parsers that stores to a field of R through a pointer that is not a local record must also store
to G, or call (transitively) a function that does.  Without any memo the lookups are pure and the rule holds trivially."""
from . import rules


def _root_is_local(f, o):
    for _ in range(10):
        o = rules.strip_casts(f, o)
        if o.get("k") == "arg":
            # a record passed or returned by value is the caller's private copy
            p_ = f.params[o["i"]] if o["i"] < len(f.params) else {}
            return "sret" in p_ or "byval" in p_
        if o.get("k") != "inst":
            return False
        i = f.insts[o["id"]]
        if i.op == "getelementptr":
            o = i["base"]
        elif i.op == "alloca":
            return True
        else:
            return False
    return False


def _globals_stored(P, f):
    out = set()
    for i in f.all_insts():
        if i.op == "store":
            p_ = i["ptr"]
            g = None
            if p_.get("k") == "global":
                g = p_["name"]
            elif p_.get("k") == "inst":
                x = f.resolve(p_)
                while x is not None and x.op in ("getelementptr", "bitcast"):
                    b = x["base"] if x.op == "getelementptr" else x["a"]
                    if b.get("k") == "global":
                        g = b["name"]
                        break
                    x = f.resolve(b) if b.get("k") == "inst" else None
            if g is not None:
                gd = P.globals.get(g) or {}
                if gd.get("internal") and not gd.get("const"):
                    out.add(g)
        elif i.op == "call" and (i.callee or "").startswith("llvm.mem"):
            a = i.args[0]
            for _ in range(4):
                a = rules.strip_casts(f, a)
                if a.get("k") == "global":
                    gd = P.globals.get(a["name"]) or {}
                    if gd.get("internal") and not gd.get("const"):
                        out.add(a["name"])
                    break
                x = f.resolve(a) if a.get("k") == "inst" else None
                if x is None or x.op != "getelementptr":
                    break
                a = x["base"]
    return out


def _fields_read(P, f, depth=0, seen=None):
    seen = set() if seen is None else seen
    if f.name in seen or depth > 2:
        return set()
    seen.add(f.name)
    out = set()
    for i in f.all_insts():
        if i.op == "load" and i["ptr"].get("k") == "inst":
            fp = rules.field_path_of_ptr(P, f, i["ptr"])
            if fp and not fp.startswith("_G"):
                out.add(fp)
        elif i.op == "call":
            g = P.functions.get(i.callee or "")
            if g is not None and g.blocks:
                out |= _fields_read(P, g, depth + 1, seen)
    return out


def run(chk, P, rid, is_lookup, floor):
    chk.rule(rid, "a lookup that remembers its last result in a global is forgotten by every writer of the fields the lookup reads (node address, connected flag, ids ...): "
                  "otherwise a later message is applied to the entity that used to live at that key")
    stores = {f.name: _globals_stored(P, f) for f in P.repo_functions() if f.blocks}
    n = 0
    for L in P.repo_functions():
        if not L.blocks or not is_lookup(L):
            continue
        n += 1
        G = stores.get(L.name, set())
        if not G:
            chk.ok(rid, 1, None)
            continue
        R = _fields_read(P, L)
        # functions that (transitively) forget the memo
        forget = {name for name, gs in stores.items() if gs & G and name != L.name}
        changed = True
        while changed:
            changed = False
            for f in P.repo_functions():
                if f.blocks and f.name not in forget and f.name != L.name and any(c.callee in forget for c in f.calls()):
                    forget.add(f.name)
                    changed = True
        # a helper that is only ever called from forgetting functions is covered by them
        covered = set(forget)
        changed = True
        while changed:
            changed = False
            for f in P.repo_functions():
                if f.blocks and f.name not in covered and f.name != L.name and f.name not in P.addr_taken():
                    cs = P.callers().get(f.name, [])
                    if cs and all(cf.name in covered for cf, ci in cs):
                        covered.add(f.name)
                        changed = True
        bad = []
        for W in P.repo_functions():
            if not W.blocks or W.relfile.startswith("src/parser/") or W.name == L.name or W.name in covered:
                continue
            for s in W.all_insts():
                if s.op == "store" and s["ptr"].get("k") == "inst" and not _root_is_local(W, s["ptr"]):
                    fp = rules.field_path_of_ptr(P, W, s["ptr"])
                    if fp in R:
                        bad.append((W, s, fp))
                        break
        if bad:
            for (W, s, fp) in bad[:12]:
                chk.violation(rid, L.name, "memo:%s:%s" % (sorted(G)[0], W.name), s.loc(),
                              "%s keeps its last result in '%s', and its result depends on %s, but %s writes that field (line %d) without forgetting the memo: the next "
                              "lookup with the remembered key returns the stale entity" % (L.name, sorted(G)[0], fp, W.name, s.line))
        else:
            chk.ok(rid, 1, {"lookup": L.name, "memo": sorted(G), "forgotten_by": sorted(forget)[:8]})
    chk.floor(rid.lower().replace("-", "_") + "_lookups", n, floor)
