"""NULL identifiers handed to the public API: a `const char *` parameter of an API function reaches a string function (strcmp, strlen, strdup,
g_string_new ...) - in the function itself or in a callee it is passed to - only behind a NULL test of that parameter.

The test may sit in the callee (on its own parameter, before the use) or in front of the call in the caller.  Interprocedural, by parameter
position, to a fixed depth; arguments that are not derived from a parameter (fields of configuration records, literals) are taken as non-NULL."""
from . import rules

STRING_SINKS = {"strcmp": (0, 1), "strncmp": (0, 1), "strlen": (0,), "strdup": (0,), "strcpy": (0, 1), "g_string_new": (), "g_strdup": (),
                "strcasecmp": (0, 1), "memcmp": (0, 1), "g_strcmp0": (), "g_str_equal": (0, 1), "g_str_hash": (0,), "strstr": (0, 1), "strchr": (0,)}


def _param_of(f, o, depth=0):
    """index of the pointer parameter the operand is the (unmodified) value of, else None"""
    o = rules.strip_casts(f, o)
    if o.get("k") == "arg":
        return o["i"]
    if o.get("k") != "inst" or depth > 4:
        return None
    r = rules.resolve_local(f, o)
    if r.get("k") == "arg":
        return r["i"]
    src = rules.load_source(f, o)
    if src and src[0] == "alloca":
        return f.param_index_of_alloca(f.insts[src[1]])
    return None


def _null_test(f, gd, truth, k):
    """the guard (holding with `truth`) says parameter k is not NULL"""
    c = f.resolve(gd["cond"])
    pol = truth
    for _ in range(6):
        if c is None:
            return False
        if c.op == "xor" and rules.const_of(f, c["b"]) in (1, -1):
            pol = not pol
            c = f.resolve(c["a"])
            continue
        if c.op == "icmp" and c["pred"] in ("eq", "ne"):
            if c["b"].get("k") == "null" or rules.const_of(f, c["b"]) == 0:
                if _param_of(f, c["a"]) == k:
                    return (c["pred"] == "ne") == pol
                # (expr != 0) over an i1
                inner = f.resolve(rules.strip_casts(f, c["a"]))
                if inner is not None and inner.op in ("icmp", "xor"):
                    if c["pred"] == "eq":
                        pol = not pol
                    c = inner
                    continue
            return False
        return False
    return False


class NullParam:
    def __init__(self, P, max_depth=3):
        self.P = P
        self.max_depth = max_depth
        self._memo = {}

    def guarded_at(self, f, inst, k):
        return any(_null_test(f, gd, truth, k) for (gd, truth) in rules.conditions_at(f, inst))

    def unguarded_uses(self, f, k, depth=0):
        """[(chain of (function, inst)) ...] uses of parameter k of f as a string that no NULL test of the parameter protects"""
        key = (f.name, k)
        if key in self._memo:
            return self._memo[key]
        self._memo[key] = []          # recursion guard
        out = []
        for c in f.calls():
            if (c.callee or "").startswith("llvm."):
                continue
            for j, a in enumerate(c.args):
                if a.get("k") not in ("inst", "arg") or _param_of(f, a) != k:
                    continue
                if self.guarded_at(f, c, k):
                    continue
                if c.callee in STRING_SINKS:
                    if j in STRING_SINKS[c.callee]:
                        out.append([(f, c)])
                    continue
                g = self.P.functions.get(c.callee or "")
                if g is not None and g.blocks and depth < self.max_depth and j < len(g.params):
                    for ch in self.unguarded_uses(g, j, depth + 1):
                        out.append([(f, c)] + ch)
        # direct dereference of the parameter (p[0], *p)
        for i in f.all_insts():
            if i.op == "load" and i["ptr"].get("k") == "inst":
                gp = f.resolve(i["ptr"])
                base = None
                if gp is not None and gp.op == "getelementptr":
                    base = gp["base"]
                if base is not None and _param_of(f, base) == k and not self.guarded_at(f, i, k):
                    out.append([(f, i)])
        self._memo[key] = out
        return out


def is_char_ptr(P, f, k):
    """parameter k is declared `char *` / `const char *` (debug info), i.e. a string and not a byte buffer"""
    for a in f.all_insts():
        if a.op == "alloca" and a.get("param") and f.param_index_of_alloca(a) == k:
            t = P.di_strip(a.get("ditype", -1))
            if t and t["kind"] == "pointer":
                b = P.di_strip(t["base"], typedefs=False)
                return bool(b) and b.get("kind") == "base" and b.get("name") == "char"
    return False


def run(chk, P, rid, api_names, only, floor):
    chk.rule(rid, "a string parameter of an API function reaches a string function or a dereference (also inside the lookups it is handed to) only behind a NULL test of "
                  "that parameter: a NULL id yields the documented empty / error result instead of a crash")
    N = NullParam(P)
    n = 0
    for name in sorted(api_names):
        f = P.functions.get(name)
        if f is None or not f.blocks or not only(f):
            continue
        for k, p in enumerate(f.params):
            if p.get("type") != "i8*" or not is_char_ptr(P, f, k):
                continue
            n += 1
            bad = N.unguarded_uses(f, k)
            if not bad:
                chk.ok(rid, 1, None)
                continue
            ch = bad[0]
            chk.violation(rid, name, "param%d" % k, ch[-1][1].loc(),
                          "%s(…) passes its string parameter #%d unchecked to %s at %s (call chain %s): a NULL argument is dereferenced" % (
                              name, k, ch[-1][1].callee if ch[-1][1].op == "call" else "a dereference", ch[-1][1].loc(),
                              " > ".join("%s:%d" % (g.name, i.line) for g, i in ch)))
    chk.floor(rid.lower().replace("-", "_") + "_params", n, floor)
