/* Canary functions for the lock rules: analysed on every run in a separate engine instance, never part of a verdict
 * on /repo.  Each vf_canary_bad_* must be reported, each vf_canary_ok_* must stay silent. */
#include <pthread.h>
#include <stdbool.h>
extern pthread_mutex_t trackstate_segments_mutex;
extern pthread_mutex_t trackstate_trains_mutex;
extern pthread_rwlock_t bidib_trains_rwlock;

int vf_canary_bad_leak(int x) {
	pthread_mutex_lock(&trackstate_segments_mutex);
	if (x > 3) {
		return 1;
	}
	pthread_mutex_unlock(&trackstate_segments_mutex);
	return 0;
}

void vf_canary_bad_order(void) {
	pthread_mutex_lock(&trackstate_trains_mutex);
	pthread_mutex_lock(&trackstate_segments_mutex);
	pthread_mutex_unlock(&trackstate_segments_mutex);
	pthread_mutex_unlock(&trackstate_trains_mutex);
}

void vf_canary_good_order(void) {
	pthread_mutex_lock(&trackstate_segments_mutex);
	pthread_mutex_lock(&trackstate_trains_mutex);
	pthread_mutex_unlock(&trackstate_trains_mutex);
	pthread_mutex_unlock(&trackstate_segments_mutex);
}

void vf_canary_bad_self(void) {
	pthread_rwlock_rdlock(&bidib_trains_rwlock);
	pthread_rwlock_wrlock(&bidib_trains_rwlock);
	pthread_rwlock_unlock(&bidib_trains_rwlock);
	pthread_rwlock_unlock(&bidib_trains_rwlock);
}

static void vf_canary_helper(bool lock) {
	if (lock) {
		pthread_mutex_lock(&trackstate_segments_mutex);
	}
	if (lock) {
		pthread_mutex_unlock(&trackstate_segments_mutex);
	}
}

void vf_canary_ok_cond(bool l) {
	vf_canary_helper(l);
	pthread_mutex_lock(&trackstate_segments_mutex);
	vf_canary_helper(false);
	pthread_mutex_unlock(&trackstate_segments_mutex);
}

void vf_canary_ok_local_flag(int x) {
	bool locked = false;
	if (x) {
		pthread_mutex_lock(&trackstate_segments_mutex);
		locked = true;
	}
	if (locked) {
		pthread_mutex_unlock(&trackstate_segments_mutex);
	}
}
