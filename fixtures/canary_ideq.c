/* Canary for C09-IDEQ: an identifier matched by prefix.  Never part of a verdict on /repo. */
#include <string.h>
#include <stdbool.h>

bool vf_canary_prefix_match(const char *configured, const char *given) {
	return strncmp(configured, given, strlen(given)) == 0;
}
