/* Canary for the region/race rule: a write to a board field under the write lock, an unlocked read of the same field,
 * and a read under the read lock.  Analysed in a separate engine instance; never part of a verdict on /repo. */
#include <pthread.h>
#include <stdbool.h>
#include <glib.h>
#include "state/bidib_state_intern.h"
extern pthread_rwlock_t bidib_boards_rwlock;
extern GArray *bidib_boards;

void vf_canary_race_writer(void) {
	pthread_rwlock_wrlock(&bidib_boards_rwlock);
	t_bidib_board *b = &g_array_index(bidib_boards, t_bidib_board, 0);
	b->connected = true;
	pthread_rwlock_unlock(&bidib_boards_rwlock);
}

bool vf_canary_race_reader_unlocked(void) {
	t_bidib_board *b = &g_array_index(bidib_boards, t_bidib_board, 0);
	return b->connected;
}

bool vf_canary_race_reader_locked(void) {
	pthread_rwlock_rdlock(&bidib_boards_rwlock);
	t_bidib_board *b = &g_array_index(bidib_boards, t_bidib_board, 0);
	bool r = b->connected;
	pthread_rwlock_unlock(&bidib_boards_rwlock);
	return r;
}
